"""Fact loading and indexing (facts are produced by /verif/driver, see DESIGN §2 E1).

Pure data access: nothing here executes library code.
"""
import json
import re


class Facts:
    def __init__(self, path):
        with open(path) as f:
            d = json.load(f)
        self.path = path
        self.raw = d
        self.crate = d['crate']
        self.types = d['types']
        self.adts = {a['path']: a for a in d['adts']}
        self.impls = d['impls']
        self.traits = {t['path']: t for t in d['traits']}
        self.bodies = []
        self.by_def = {}
        for b in d['bodies']:
            body = Body(self, b)
            self.bodies.append(body)
            if body.promoted is None:
                self.by_def[body.defpath] = body
        self.n_calls = d['n_calls']

    # ---- types
    def ty(self, i):
        return self.types[i]

    def ty_s(self, i):
        return self.types[i]['s'] if i is not None else '?'

    def ty_adt(self, i, peel=True):
        """ADT path of a type, looking through references."""
        t = self.types[i]
        n = 0
        while peel and t.get('k') in ('ref', 'rawptr') and 'inner' in t and n < 8:
            t = self.types[t['inner']]
            n += 1
        if t.get('k') == 'adt':
            return t['adt']
        return None

    # ---- queries
    def find(self, pred):
        return [b for b in self.bodies if b.promoted is None and pred(b)]

    def body(self, defpath):
        return self.by_def.get(defpath)

    def bodies_named(self, name, self_adt=None, trait=None):
        out = []
        for b in self.bodies:
            if b.promoted is not None or b.name != name or b.dk not in ('Fn', 'AssocFn'):
                continue
            if self_adt is not None and b.self_adt != self_adt:
                continue
            if trait is not None and b.impl_trait != trait and b.trait != trait:
                continue
            out.append(b)
        return out

    def closures_of(self, body):
        return [b for b in self.bodies if b.root == body.defpath and b.dk == 'Closure' and b.promoted is None]

    def impls_of_trait(self, trait):
        return [i for i in self.impls if i.get('trait') == trait]


class Body:
    def __init__(self, facts, raw):
        self.facts = facts
        self.raw = raw
        self.defpath = raw['def']
        self.promoted = raw.get('promoted')
        self.dk = raw['dk']
        self.name = raw.get('name')
        self.root = raw.get('root')
        self.unsafe = raw.get('unsafe', False)
        self.vis = raw.get('vis')
        self.trait = raw.get('trait')          # assoc item of a trait definition (default body)
        self.impl = raw.get('impl')
        self.impl_self = raw.get('impl_self')
        self.impl_trait = raw.get('impl_trait')
        self.impl_trait_ref = raw.get('impl_trait_ref')
        self.derived = raw.get('derived', False)
        self.arg_count = raw['arg_count']
        self.locals = raw['locals']
        self.blocks = raw['blocks']
        self.debug = raw['debug']
        self.span = raw['span']['at']
        self.from_expansion = raw['span'].get('exp', False)
        self.self_adt = facts.ty_adt(self.impl_self) if self.impl_self is not None else None
        self._names = None

    @property
    def file(self):
        return self.span.split(':')[0]

    @property
    def line(self):
        try:
            return int(self.span.split(':')[1])
        except Exception:
            return 0

    def local_ty(self, l):
        return self.locals[l]['ty']

    def local_ty_s(self, l):
        return self.facts.ty_s(self.locals[l]['ty'])

    def names(self):
        if self._names is None:
            n = {}
            for d in self.debug:
                v = d['v']
                if 'l' in v and not v['p']:
                    n.setdefault(v['l'], d['name'])
            self._names = n
        return self._names

    def receiver_kind(self):
        """'&self' | '&mut self' | 'self' | None (no receiver named self)."""
        for d in self.debug:
            if d['name'] == 'self' and d.get('arg') == 1 and 'l' in d['v'] and not d['v']['p']:
                t = self.facts.ty(self.local_ty(d['v']['l']))
                if t.get('k') == 'ref':
                    return '&mut self' if t.get('mut') else '&self'
                return 'self'
        return None

    def calls(self, include_cleanup=False):
        """Yield (block index, terminator) of every call."""
        for i, b in enumerate(self.blocks):
            if b['cleanup'] and not include_cleanup:
                continue
            t = b['term']
            if t['k'] in ('call', 'tailcall'):
                yield i, t

    def label(self):
        return '%s (%s)' % (self.defpath, self.span.rsplit('-', 1)[0])


# ---------------------------------------------------------------- helpers on raw JSON nodes

def callee(term):
    """fn-item dict of a call terminator or None for indirect calls."""
    f = term['func']
    if f.get('k') == 'const' and f.get('ck') == 'fn':
        return f['fn']
    return None


def callee_def(term):
    c = callee(term)
    return c['def'] if c else None


def callee_name(term):
    c = callee(term)
    return c.get('name') if c else None


def place_str(p, body=None):
    s = '_%d' % p['l']
    if body is not None:
        n = body.names().get(p['l'])
        if n:
            s = n
    for e in p['p']:
        if e == 'deref':
            s = '(*%s)' % s
        elif isinstance(e, dict) and 'f' in e:
            s += '.' + e['n']
        elif isinstance(e, dict) and 'dc' in e:
            s += ' as %s' % e.get('n')
        elif isinstance(e, dict) and 'idx' in e:
            s += '[_%d]' % e['idx']
        else:
            s += '{%s}' % (json.dumps(e) if not isinstance(e, str) else e)
    return s


def op_str(o, body=None):
    k = o['k']
    if k in ('copy', 'move'):
        return ('move ' if k == 'move' else '') + place_str(o['place'], body)
    if k == 'const':
        if o.get('ck') == 'fn':
            return 'fn ' + o['fn']['def']
        return o['text']
    return json.dumps(o)


def rv_str(r, body=None, facts=None):
    k = r['k']
    if k == 'use':
        return op_str(r['op'], body)
    if k == 'ref':
        return ('&mut ' if r['mut'] else '&') + place_str(r['place'], body)
    if k == 'rawptr':
        return ('&raw mut ' if r['mut'] else '&raw const ') + place_str(r['place'], body)
    if k == 'bin':
        return '%s(%s, %s)' % (r['op'], op_str(r['l'], body), op_str(r['r'], body))
    if k == 'un':
        return '%s(%s)' % (r['op'], op_str(r['x'], body))
    if k == 'cast':
        ty = facts.ty_s(r['ty']) if facts else r['ty']
        return '%s as %s [%s]' % (op_str(r['op'], body), ty, r['ck'])
    if k == 'discr':
        return 'discriminant(%s)' % place_str(r['place'], body)
    if k == 'agg':
        head = r['ak']
        if r['ak'] == 'adt':
            head = '%s::%s' % (r['adt'], r['vname'])
        elif r['ak'] == 'closure':
            head = 'closure ' + r['def']
        return '%s{%s}' % (head, ', '.join(op_str(f, body) for f in r['fields']))
    if k == 'repeat':
        return '[%s; %s]' % (op_str(r['op'], body), r['n'])
    return json.dumps(r)[:200]


def dump_body(body, out=None, cleanup=False):
    import sys
    out = out or sys.stdout
    F = body.facts
    w = out.write
    w('fn %s   [%s]\n' % (body.defpath, body.span))
    w('   dk=%s vis=%s unsafe=%s impl_self=%s impl_trait=%s derived=%s recv=%s\n' % (
        body.dk, body.vis, body.unsafe, F.ty_s(body.impl_self) if body.impl_self is not None else None,
        body.impl_trait_ref, body.derived, body.receiver_kind()))
    names = body.names()
    for i, l in enumerate(body.locals):
        w('   let _%d: %s%s\n' % (i, F.ty_s(l['ty']), ('   // ' + names[i]) if i in names else ''))
    for i, bl in enumerate(body.blocks):
        if bl['cleanup'] and not cleanup:
            continue
        w(' bb%d%s:\n' % (i, ' (cleanup)' if bl['cleanup'] else ''))
        for st in bl['stmts']:
            if st['k'] == 'assign':
                w('    %s = %s      // %s\n' % (place_str(st['place']), rv_str(st['rv'], None, F), st['span']['at'].split(':', 1)[1]))
            else:
                w('    %s\n' % json.dumps({k: v for k, v in st.items() if k != 'span'}))
        t = bl['term']
        k = t['k']
        if k == 'call':
            c = callee(t)
            name = c['def'] if c else op_str(t['func'])
            extra = ''
            if c:
                ga = []
                for a in c['args']:
                    if 'ty' in a:
                        ga.append(F.ty_s(a['ty']))
                    elif 'const' in a:
                        ga.append(a['const'])
                extra = '  <%s>' % ', '.join(ga)
                if c.get('res'):
                    extra += ' => ' + c['res']['def']
                if c.get('unsafe'):
                    extra += ' UNSAFE'
            w('    %s = %s(%s) -> bb%s%s   // %s\n' % (place_str(t['dest']), name, ', '.join(op_str(a) for a in t['args']), t.get('t'), extra, t['span']['at'].split(':', 1)[1]))
        elif k == 'switch':
            w('    switchInt(%s) -> %s, otherwise bb%d\n' % (op_str(t['op']), ', '.join('%s: bb%d' % (v, b) for v, b in t['targets']), t['otherwise']))
        elif k == 'assert':
            w('    assert(%s%s, %s) -> bb%d\n' % ('' if t['expected'] else '!', op_str(t['cond']), t['msg'], t['t']))
        elif k == 'drop':
            w('    drop(%s) -> bb%d\n' % (place_str(t['place']), t['t']))
        elif k == 'goto':
            w('    goto -> bb%d\n' % t['t'])
        else:
            w('    %s\n' % k)
