"""MIR-level inlining of *unknown private mutating helpers* (DESIGN §2: interprocedural by inlining with a stated bound).

A crate-local, private, safe function that is handed a `&mut` by its caller and that no rule knows by role
(`keep` = the role helpers resolved by vlib/anchors.py) is spliced into the caller's CFG before evaluation, so that
extracting a few statements into a helper does not change what the rules see.  Bound: depth <= 2, callee <= 120 blocks,
no recursion.  Everything else (pure helpers, trait-dispatched calls, role helpers, unsafe fns) stays an opaque call.
"""
import copy

from .facts import Body, callee

MAX_DEPTH = 2
MAX_BLOCKS = 120


def _remap_place(p, loff):
    q = {'l': p['l'] + loff, 'p': []}
    for e in p['p']:
        if isinstance(e, dict) and 'idx' in e:
            e = dict(e)
            e['idx'] = e['idx'] + loff
        q['p'].append(e)
    return q


def _remap_operand(o, loff):
    if o.get('k') in ('copy', 'move'):
        return {'k': o['k'], 'place': _remap_place(o['place'], loff)}
    return o


def _remap_rvalue(rv, loff):
    rv = dict(rv)
    for k in ('op', 'l', 'r', 'x'):
        if k in rv and isinstance(rv[k], dict):
            rv[k] = _remap_operand(rv[k], loff)
    if 'place' in rv:
        rv['place'] = _remap_place(rv['place'], loff)
    if 'fields' in rv:
        rv['fields'] = [_remap_operand(f, loff) for f in rv['fields']]
    return rv


def _remap_stmt(s, loff):
    s = dict(s)
    if 'place' in s:
        s['place'] = _remap_place(s['place'], loff)
    if 'rv' in s:
        s['rv'] = _remap_rvalue(s['rv'], loff)
    return s


def _remap_term(t, loff, boff, ret_to, dest, span):
    """Returns (extra statements, new terminator)."""
    k = t['k']
    t = dict(t)
    b = lambda x: None if x is None else x + boff
    if k == 'goto':
        t['t'] = b(t['t'])
        return [], t
    if k == 'switch':
        t['op'] = _remap_operand(t['op'], loff)
        t['targets'] = [[v, b(x)] for v, x in t['targets']]
        t['otherwise'] = b(t['otherwise'])
        return [], t
    if k == 'return':
        st = {'k': 'assign', 'place': dest, 'rv': {'k': 'use', 'op': {'k': 'move', 'place': {'l': loff, 'p': []}}}, 'span': span}
        if ret_to is None:
            return [st], {'k': 'unreachable', 'span': span}
        return [st], {'k': 'goto', 't': ret_to}
    if k == 'drop':
        t['place'] = _remap_place(t['place'], loff)
        t['t'] = b(t['t'])
        t['unwind'] = b(t.get('unwind'))
        return [], t
    if k in ('call', 'tailcall'):
        t['func'] = _remap_operand(t['func'], loff)
        t['args'] = [_remap_operand(a, loff) for a in t['args']]
        if 'dest' in t:
            t['dest'] = _remap_place(t['dest'], loff)
        t['t'] = b(t.get('t'))
        t['unwind'] = b(t.get('unwind'))
        return [], t
    if k == 'assert':
        t['cond'] = _remap_operand(t['cond'], loff)
        t['t'] = b(t['t'])
        t['unwind'] = b(t.get('unwind'))
        return [], t
    return [], t


def _has_mut_ref_arg(body, term):
    for a in term['args']:
        if a.get('k') in ('copy', 'move') and not a['place']['p']:
            ty = body.facts.ty(body.local_ty(a['place']['l']))
            if ty.get('k') == 'ref' and ty.get('mut'):
                return True
    return False


def candidates(F, body, keep, stack):
    out = []
    for blk, t in body.calls():
        if t['k'] != 'call':
            continue
        c = callee(t)
        if not c or not c.get('local') or c.get('unsafe'):
            continue
        cb = F.by_def.get(c['def'])
        if cb is None or cb.dk not in ('Fn', 'AssocFn') or cb.vis == 'pub' or cb.impl_trait is not None or cb.trait is not None:
            continue
        if cb.defpath in keep or cb.defpath in stack or cb.defpath == body.defpath:
            continue
        if len(cb.blocks) > MAX_BLOCKS:
            continue
        if not _has_mut_ref_arg(body, t):
            continue
        out.append((blk, cb))
    return out


def inline_body(F, body, keep, depth=0, stack=()):
    """Body with unknown private mutating helpers spliced in (or the same body if there is nothing to do)."""
    if depth >= MAX_DEPTH:
        return body, []
    cands = candidates(F, body, keep, stack + (body.defpath,))
    if not cands:
        return body, []
    raw = copy.deepcopy(body.raw)
    inlined = []
    for blk, cb in cands:
        cb2, sub = inline_body(F, cb, keep, depth + 1, stack + (body.defpath,))
        t = raw['blocks'][blk]['term']
        loff = len(raw['locals'])
        boff = len(raw['blocks'])
        raw['locals'] = raw['locals'] + copy.deepcopy(cb2.raw['locals'])
        span = t['span']
        # bind arguments
        binds = []
        for i, a in enumerate(t['args']):
            binds.append({'k': 'assign', 'place': {'l': loff + 1 + i, 'p': []}, 'rv': {'k': 'use', 'op': a}, 'span': span})
        ret_to = t.get('t')
        dest = t['dest']
        for cbl in cb2.raw['blocks']:
            nb = {'cleanup': cbl['cleanup'], 'stmts': [_remap_stmt(s, loff) for s in cbl['stmts']]}
            extra, nt = _remap_term(cbl['term'], loff, boff, ret_to, dest, span)
            nb['stmts'] += extra
            nb['term'] = nt
            raw['blocks'].append(nb)
        raw['blocks'][blk]['stmts'] = raw['blocks'][blk]['stmts'] + binds
        raw['blocks'][blk]['term'] = {'k': 'goto', 't': boff}
        for d in cb2.raw['debug']:
            if 'l' in d['v']:
                raw['debug'].append({'name': cb.name + '::' + d['name'], 'v': _remap_place(d['v'], loff)})
        inlined.append(cb.defpath)
        inlined += sub
    nb = Body(F, raw)
    nb.inlined = inlined
    return nb, inlined
