"""Path-sensitive term evaluation over extracted MIR (DESIGN §2 E2: the value graph).

This is an abstract interpreter over a *term* domain: every value is a hash-consed term over
atoms (arguments, initial memory, constants, opaque call results).  No concrete or symbolic
execution of library code takes place and no solver is involved: predicates stay opaque terms and
are only compared structurally.  Loops are abstracted by havocking what the loop body may write
(sound over-approximation of every iteration).
"""
from . import cfg as cfgmod
from .facts import callee

# ---------------------------------------------------------------- terms

COMMUTATIVE = {'Add', 'Mul', 'BitAnd', 'BitOr', 'BitXor', 'Eq', 'Ne', 'Add.w', 'Mul.w', 'Add.unchecked', 'Mul.unchecked'}
FLIP = {'Gt': 'Lt', 'Ge': 'Le'}
NEGATE = {'Lt': 'Ge', 'Le': 'Gt', 'Gt': 'Le', 'Ge': 'Lt', 'Eq': 'Ne', 'Ne': 'Eq'}


def mk_int(n):
    return ('int', n)


TRUE = ('int', 1)
FALSE = ('int', 0)


def is_int(t):
    return isinstance(t, tuple) and t and t[0] == 'int'


def tkey(t):
    return repr(t)


def mk_bin(op, a, b):
    base, _, sfx = op.partition('.')
    if base.endswith('WithOverflow'):
        core = base[:-len('WithOverflow')]
        return ('agg', 'tuple', (mk_bin(core, a, b), ('ovf', core, a, b)), None)
    if base.endswith('Unchecked'):
        base = base[:-len('Unchecked')]
    if base in FLIP:
        base, a, b = FLIP[base], b, a
    op = base + ('.' + sfx if sfx else '')
    if is_int(a) and is_int(b):
        x, y = a[1], b[1]
        try:
            if base == 'Add':
                return mk_int(x + y)
            if base == 'Sub':
                return mk_int(x - y)
            if base == 'Mul':
                return mk_int(x * y)
            if base == 'Eq':
                return mk_int(int(x == y))
            if base == 'Ne':
                return mk_int(int(x != y))
            if base == 'Lt':
                return mk_int(int(x < y))
            if base == 'Le':
                return mk_int(int(x <= y))
            if base == 'Shl' and 0 <= y < 256:
                return mk_int(x << y)
            if base == 'Shr' and 0 <= y < 256 and x >= 0:
                return mk_int(x >> y)
            if base == 'BitAnd':
                return mk_int(x & y)
            if base == 'BitOr':
                return mk_int(x | y)
        except Exception:
            pass
    if (op in COMMUTATIVE or base in ('Eq', 'Ne')) and tkey(a) > tkey(b):
        a, b = b, a
    return ('bin', op, a, b)


def mk_not(a):
    if is_int(a):
        return mk_int(int(not a[1]))
    if a[0] == 'bin' and a[1] in NEGATE:
        return mk_bin(NEGATE[a[1]], a[2], a[3])
    # float comparisons ('.f') are NOT negated into their complement: !(x >= 0) differs from x < 0 for NaN
    if a[0] == 'un' and a[1] == 'Not':
        return a[2]
    return ('un', 'Not', a)


def subterms(t):
    """All sub-terms (pre-order)."""
    yield t
    if isinstance(t, tuple):
        for x in t[1:]:
            if isinstance(x, tuple):
                if x and isinstance(x[0], str):
                    yield from subterms(x)
                else:
                    for y in x:
                        if isinstance(y, tuple) and y and isinstance(y[0], str):
                            yield from subterms(y)
                        elif isinstance(y, tuple):
                            for z in y:
                                if isinstance(z, tuple) and z and isinstance(z[0], str):
                                    yield from subterms(z)


def contains(t, pred):
    return any(pred(x) for x in subterms(t))


def show(t, depth=0):
    """Compact human-readable rendering."""
    if not isinstance(t, tuple) or not t:
        return str(t)
    h = t[0]
    if depth > 12:
        return '…'
    d = depth + 1
    if h == 'int':
        return str(t[1])
    if h == 'c':
        return t[1]
    if h == 'k':
        return '%s()' % t[1]
    if h == 'arg':
        return 'arg%d' % t[1]
    if h == 'in':
        return 'in:' + path_str(t[1])
    if h == 'bin':
        return '%s(%s, %s)' % (t[1], show(t[2], d), show(t[3], d))
    if h == 'un':
        return '%s(%s)' % (t[1], show(t[2], d))
    if h == 'cast':
        return '(%s as[%s] %s)' % (show(t[2], d), t[1], t[3])
    if h == 'call':
        return '%s(%s)%s' % (t[1], ', '.join(show(x, d) for x in t[2]), ('#%s' % (t[3],)) if t[3] is not None else '')
    if h == 'post':
        return 'post#%s:%s' % (t[1], path_str(t[2]))
    if h == 'loop':
        return 'loop@bb%s:%s' % (t[1], path_str(t[2]))
    if h == 'ref':
        return ('&mut ' if t[2] else '&') + path_str(t[1])
    if h == 'agg':
        head = t[1]
        if isinstance(head, tuple):
            head = '%s::%s' % (head[1].split('::')[-1], head[2]) if head[0] == 'adt' else str(head[1])
        return '%s{%s}' % (head, ', '.join(show(x, d) for x in t[2]))
    if h == 'elems':
        return 'elems#%s(%s)' % (t[1], show(t[2], d))
    if h in ('unwrap', 'residual', 'try', 'discr', 'len', 'err_of', 'try_c', 'try_b'):
        return '%s(%s)' % (h, show(t[1], d))
    if h == 'is':
        return 'is_%s(%s)' % (t[1], show(t[2], d))
    if h == 'proj':
        return '%s.%s' % (show(t[1], d), elem_str(t[2]))
    if h == 'partial':
        return '%s with{%s}' % (show(t[1], d), ', '.join('%s=%s' % (path_str(p), show(v, d)) for p, v in t[2]))
    return '%s(%s)' % (h, ', '.join(show(x, d) if isinstance(x, tuple) else str(x) for x in t[1:]))


def elem_str(e):
    if e == 'deref':
        return '*'
    if isinstance(e, tuple):
        if e[0] == 'f':
            return e[1]
        if e[0] == 'dc':
            return 'as ' + str(e[1])
        if e[0] == 'idx':
            return '[%s]' % show(e[1])
        return str(e)
    return str(e)


def path_str(p):
    s = '_%s' % (p[0],)
    for e in p[1:]:
        if e == 'deref':
            s = '(*%s)' % s
        else:
            s += '.' + elem_str(e)
    return s


# ---------------------------------------------------------------- callee classification

def short_callee(c):
    """Stable key of a callee: trait path + method for trait calls, def path otherwise."""
    if c is None:
        return '<indirect>'
    return c['def']


IDENTITY_CALLS = {
    'core::convert::Into::into', 'core::convert::From::from', 'core::borrow::Borrow::borrow',
    'core::borrow::BorrowMut::borrow_mut',
    'core::convert::AsRef::as_ref', 'core::convert::AsMut::as_mut', 'core::ops::Deref::deref',
    'core::ops::DerefMut::deref_mut', 'core::clone::Clone::clone', 'NonZeroBitArray::get',
    'alloc::borrow::ToOwned::to_owned',
}
VIEW_CALLS = {'core::convert::AsRef::as_ref', 'core::convert::AsMut::as_mut', 'core::ops::Deref::deref',
              'core::ops::DerefMut::deref_mut', 'core::borrow::Borrow::borrow', 'core::borrow::BorrowMut::borrow_mut'}
FLOAT_TYPES = ('f32', 'f64', 'F')      # `F` is the crate's naming convention for a generic float parameter
OP_TRAITS = {
    'core::ops::Add::add': 'Add', 'core::ops::Sub::sub': 'Sub', 'core::ops::Mul::mul': 'Mul',
    'core::ops::Div::div': 'Div', 'core::ops::Rem::rem': 'Rem', 'core::ops::Shl::shl': 'Shl',
    'core::ops::Shr::shr': 'Shr', 'core::ops::BitAnd::bitand': 'BitAnd', 'core::ops::BitOr::bitor': 'BitOr',
    'core::ops::BitXor::bitxor': 'BitXor',
}
CMP_TRAITS = {
    'core::cmp::PartialOrd::lt': 'Lt', 'core::cmp::PartialOrd::le': 'Le', 'core::cmp::PartialOrd::gt': 'Gt',
    'core::cmp::PartialOrd::ge': 'Ge', 'core::cmp::PartialEq::eq': 'Eq', 'core::cmp::PartialEq::ne': 'Ne',
}
REF_OPS = {
    'num_traits::WrappingAdd::wrapping_add': 'Add.w', 'num_traits::WrappingSub::wrapping_sub': 'Sub.w',
    'num_traits::WrappingMul::wrapping_mul': 'Mul.w',
    'num_traits::ops::wrapping::WrappingAdd::wrapping_add': 'Add.w',
    'num_traits::ops::wrapping::WrappingSub::wrapping_sub': 'Sub.w',
    'num_traits::ops::wrapping::WrappingMul::wrapping_mul': 'Mul.w',
}
CONST_FNS = {'one': 'one', 'zero': 'zero', 'max_value': 'max_value', 'min_value': 'min_value'}
CONST_FN_TRAITS = {'num_traits::One', 'num_traits::Zero', 'num_traits::Bounded', 'num_traits::identities::One',
                   'num_traits::identities::Zero', 'num_traits::bounds::Bounded'}


class TooManyPaths(Exception):
    pass


class PathResult:
    __slots__ = ('end', 'ret', 'events', 'preds', 'store', 'blocks', 'end_block')

    def __init__(self, end, ret, events, preds, store, blocks, end_block):
        self.end = end            # 'return' | 'diverge' | 'backedge' | 'unreachable'
        self.ret = ret
        self.events = events
        self.preds = preds        # list of (term, value, block)
        self.store = store
        self.blocks = blocks
        self.end_block = end_block

    def calls(self, name=None):
        for e in self.events:
            if e['kind'] == 'call' and (name is None or e['name'] == name or e['callee'] == name):
                yield e

    def writes(self):
        for e in self.events:
            if e['kind'] == 'write':
                yield e


class State:
    __slots__ = ('store', 'events', 'preds', 'blocks', 'loops_seen', 'uid', 'pred_index')

    def __init__(self):
        self.store = {}
        self.events = []
        self.preds = []
        self.blocks = []
        self.loops_seen = ()
        self.uid = 0
        self.pred_index = {}

    def clone(self):
        s = State()
        s.store = dict(self.store)
        s.events = list(self.events)
        s.preds = list(self.preds)
        s.blocks = list(self.blocks)
        s.loops_seen = self.loops_seen
        s.uid = self.uid
        s.pred_index = dict(self.pred_index)
        return s


class Evaluator:
    """Enumerates the paths of one body and evaluates them over the term domain.

    call_hook(evaluator, state, term_dict, callee_dict, arg_terms) may return a term to override
    the default modelling of a call (used for one-level inlining of crate-local pure helpers).
    """

    def __init__(self, body, max_paths=4000, call_hook=None, max_visits=1, record_reads=False):
        self.body = body
        self.F = body.facts
        self.cfg = cfgmod.CFG(body)
        self.max_paths = max_paths
        self.call_hook = call_hook
        self.loops = self.cfg.loops()
        self.loop_writes = {}
        self.record_reads = record_reads
        self.n_paths = 0

    # ---- paths / memory
    def canon(self, st, local, proj):
        """Canonical access path of a MIR place in state st."""
        path = (local,)
        for e in proj:
            if e == 'deref':
                v = self._lookup_exact(st, path)
                if v is not None and v[0] == 'ref':
                    path = v[1]
                    continue
                if v is not None and v[0] == 'in':
                    # a reference that lives in caller memory: its pointee is addressed through that memory
                    path = v[1] + ('deref',)
                    continue
                path = path + ('deref',)
            elif isinstance(e, dict) and 'f' in e:
                path = path + (('f', e['n']),)
            elif isinstance(e, dict) and 'dc' in e:
                path = path + (('dc', e.get('n')),)
            elif isinstance(e, dict) and 'idx' in e:
                it = self.read(st, (e['idx'],))
                if not st.events or st.events[-1].get('kind') != 'index' or st.events[-1]['index'] != it:
                    st.events.append({'kind': 'index', 'index': it, 'base': path, 'block': st.blocks[-1] if st.blocks else 0})
                path = path + (('idx', it),)
            elif isinstance(e, dict) and 'cidx' in e:
                path = path + (('cidx', e['cidx'], e.get('from_end', False)),)
            else:
                path = path + (('other', repr(e)),)
        return path

    def _lookup_exact(self, st, path):
        v = st.store.get(path)
        if v is not None:
            return v
        if len(path) == 1:
            l = path[0]
            if isinstance(l, int) and 1 <= l <= self.body.arg_count:
                return ('arg', l)
            return None
        return None

    def read(self, st, path):
        store = st.store
        v = store.get(path)
        base = v
        if base is None:
            # longest proper prefix present
            for cut in range(len(path) - 1, 0, -1):
                q = path[:cut]
                pv = store.get(q)
                if pv is None and cut == 1:
                    l = q[0]
                    if isinstance(l, int) and 1 <= l <= self.body.arg_count:
                        pv = None  # initial memory below
                if pv is not None:
                    base = pv
                    for e in path[cut:]:
                        base = self.project(st, base, e)
                    break
            if base is None:
                base = self.initial(path)
        # overrides (extensions of path present in the store)
        n = len(path)
        ov = [(p, t) for p, t in store.items() if len(p) > n and p[:n] == path]
        if ov:
            ov.sort(key=lambda x: repr(x[0]))
            return ('partial', base, tuple((p[n:], t) for p, t in ov))
        return base

    def initial(self, path):
        l = path[0]
        if isinstance(l, int) and 1 <= l <= self.body.arg_count:
            if len(path) == 1:
                return ('arg', l)
            return ('in', path)
        return ('uninit', path)

    def project(self, st, v, e):
        h = v[0]
        if e == 'deref':
            if h == 'ref':
                return self.read(st, v[1])
            if h == 'pref':
                return v[1]
            return ('proj', v, 'deref')
        if h == 'agg':
            head, fields, fnames = v[1], v[2], v[3]
            if e[0] == 'dc':
                if isinstance(head, tuple) and head[0] == 'adt':
                    return v if head[2] == e[1] else ('bottom',)
                return v
            if e[0] == 'f':
                if fnames and e[1] in fnames:
                    return fields[fnames.index(e[1])]
                try:
                    i = int(e[1])
                    if i < len(fields):
                        return fields[i]
                except ValueError:
                    pass
        if h == 'try':
            if e[0] == 'dc':
                return ('try_c', v[1]) if e[1] == 'Continue' else ('try_b', v[1])
        if h == 'try_c' and e[0] == 'f':
            return mk_unwrap(v[1])
        if h == 'try_b' and e[0] == 'f':
            return ('residual', v[1])
        if h == 'partial':
            # look for an override on exactly this element
            for p, t in v[2]:
                if p == (e,):
                    return t
            sub = tuple((p[1:], t) for p, t in v[2] if len(p) > 1 and p[0] == e)
            b = self.project(st, v[1], e)
            return ('partial', b, sub) if sub else b
        if h == 'in':
            return ('in', v[1] + (e,))
        if e[0] == 'dc':
            return ('as', v, e[1])
        if h == 'as' and e[0] == 'f':
            inner = v[1]
            if v[2] == 'Some' and e[1] == '0' and isinstance(inner, tuple) and inner and inner[0] == 'call' and isinstance(inner[1], str) \
                    and inner[1].startswith('core::num::') and inner[1].endswith(('::checked_sub', '::checked_add')) and len(inner[2]) == 2:
                # the payload of a successful checked operation is the plain result
                return mk_bin('Sub' if inner[1].endswith('checked_sub') else 'Add', inner[2][0], inner[2][1])
            return ('payload', v[1], v[2], e[1])
        return ('proj', v, e)

    def write(self, st, path, t):
        n = len(path)
        for p in [p for p in st.store if len(p) > n and p[:n] == path]:
            del st.store[p]
        st.store[path] = t

    # ---- operands
    def const_term(self, c):
        ck = c.get('ck')
        if ck == 'fn':
            return ('fnitem', c['fn']['def'])
        if 'int' in c:
            return mk_int(c['int'])
        if ck == 'tyconst' and 'param' in c:
            return ('c', c['param'])
        if ck == 'uneval':
            txt = c['text']
            if txt.startswith('const '):
                txt = txt[6:]
            if c.get('promoted') is not None:
                v = self._promoted_value(c['def'], c['promoted'])
                if v is not None:
                    return ('pref', v)
                return ('promoted', c['def'], c['promoted'])
            return ('c', txt)
        if c.get('zst'):
            return ('agg', 'tuple', (), None)
        txt = c.get('text', '?')
        if txt.startswith('const '):
            txt = txt[6:]
        return ('c', txt)

    def _promoted_value(self, defpath, idx):
        """Value a promoted constant (`&CONST_EXPR`) points to, evaluated over the same term domain."""
        cache = getattr(self.F, '_promoted_cache', None)
        if cache is None:
            cache = self.F._promoted_cache = {}
        key = (defpath, idx)
        if key in cache:
            return cache[key]
        cache[key] = None
        for b in self.F.bodies:
            if b.defpath == defpath and b.promoted == idx:
                try:
                    ev = Evaluator(b, max_paths=64)
                    rs = [r for r in ev.run() if r.end == 'return']
                except Exception:
                    rs = []
                if len(rs) == 1 and rs[0].ret is not None:
                    v = rs[0].ret
                    if v[0] == 'ref':
                        v = ev.final_read(rs[0], v[1])
                    cache[key] = v
                break
        return cache[key]

    def operand(self, st, o):
        k = o['k']
        if k in ('copy', 'move'):
            p = o['place']
            return self.read(st, self.canon(st, p['l'], p['p']))
        if k == 'const':
            return self.const_term(o)
        return ('unknown_operand',)

    def deref_val(self, st, t):
        """Value behind a reference term (operators on refs compare values)."""
        n = 0
        while t[0] in ('ref', 'pref') and n < 6:
            t = self.read(st, t[1]) if t[0] == 'ref' else t[1]
            n += 1
        return t

    # ---- rvalues
    def rvalue(self, st, rv):
        k = rv['k']
        if k == 'use':
            return self.operand(st, rv['op'])
        if k in ('ref', 'rawptr'):
            p = rv['place']
            path = self.canon(st, p['l'], p['p'])
            if p['p'] == ['deref']:
                v = self._lookup_exact(st, (p['l'],))
                if v is not None and v[0] == 'ref' and len(v) == 4:
                    return ('ref', path, bool(rv['mut']), v[3])   # reborrow of a slice view stays a view
            return ('ref', path, bool(rv['mut']))
        if k == 'bin':
            bop = rv['op']
            if bop in ('Lt', 'Le', 'Gt', 'Ge', 'Eq', 'Ne') and self._operand_is_float(rv['l']):
                bop += '.f'
            return mk_bin(bop, self.operand(st, rv['l']), self.operand(st, rv['r']))
        if k == 'un':
            x = self.operand(st, rv['x'])
            if rv['op'] == 'Not':
                return mk_not(x)
            if rv['op'] == 'PtrMetadata':
                return mk_len(self.deref_val(st, x))
            return ('un', rv['op'], x)
        if k == 'cast':
            x = self.operand(st, rv['op'])
            ck = rv['ck']
            if ck.startswith('PointerCoercion') or ck in ('PtrToPtr', 'Transmute') and x[0] == 'ref':
                return x
            return ('cast', ck, x, self.F.ty_s(rv['ty']), self.F.ty_s(rv['from']) if 'from' in rv else None)
        if k == 'discr':
            p = rv['place']
            v = self.read(st, self.canon(st, p['l'], p['p']))
            return mk_discr(v, rv.get('variants'))
        if k == 'agg':
            fields = tuple(self.operand(st, f) for f in rv['fields'])
            ak = rv['ak']
            if ak == 'adt':
                return ('agg', ('adt', rv['adt'], rv['vname']), fields, tuple(rv['fnames']))
            if ak == 'closure':
                return ('agg', ('closure', rv['def']), fields, None)
            return ('agg', ak, fields, None)
        if k == 'repeat':
            return ('repeat', self.operand(st, rv['op']), rv['n'])
        return ('unknown_rvalue', k)

    # ---- calls
    def model_call(self, st, term, blk):
        c = callee(term)
        args = [self.operand(st, a) for a in term['args']]
        name = c['def'] if c else '<indirect>'
        uid_needed = False
        mut_paths = []
        for a in args:
            if a[0] == 'ref' and a[2]:
                mut_paths.append(a[1])
        res = None
        if self.call_hook is not None:
            res = self.call_hook(self, st, term, c, args)
        if res is None and c is not None:
            d = c['def']
            nm = c.get('name')
            if d in IDENTITY_CALLS and args:
                res = args[0]
                if res[0] == 'ref' and d in VIEW_CALLS:
                    res = ('ref', res[1], res[2], 'view')
                if d == 'core::clone::Clone::clone' or d == 'alloc::borrow::ToOwned::to_owned':
                    res = self.deref_val(st, args[0])
                if d in ('core::convert::AsMut::as_mut', 'core::ops::DerefMut::deref_mut', 'core::borrow::BorrowMut::borrow_mut'):
                    mut_paths = []   # the borrow itself does not write
            elif d in ('core::mem::replace', 'std::mem::replace') and len(args) == 2 and args[0][0] == 'ref' and args[0][2] and len(args[0]) == 3:
                # `mem::replace(&mut place, v)`: a store of v that hands the old value back
                path = args[0][1]
                res = self.read(st, path)
                val = self.deref_val(st, args[1]) if args[1][0] == 'ref' else args[1]
                self.write(st, path, val)
                if self._is_memory(path):
                    st.events.append({'kind': 'write', 'block': blk, 'path': path, 'value': val, 'span': term['span']['at'], 'loops': st.loops_seen})
                mut_paths = []
            elif d in OP_TRAITS and len(args) == 2:
                res = mk_bin(OP_TRAITS[d], self.deref_val(st, args[0]), self.deref_val(st, args[1]))
            elif d in CMP_TRAITS and len(args) == 2:
                cop = CMP_TRAITS[d]
                sty = self.F.ty_s(c['args'][0]['ty']) if c['args'] and 'ty' in c['args'][0] else ''
                if sty in FLOAT_TYPES:
                    cop += '.f'
                res = mk_bin(cop, self.deref_val(st, args[0]), self.deref_val(st, args[1]))
            elif d in REF_OPS and len(args) == 2:
                res = mk_bin(REF_OPS[d], self.deref_val(st, args[0]), self.deref_val(st, args[1]))
            elif d.startswith('core::num::<impl ') and nm in ('wrapping_add', 'wrapping_sub', 'wrapping_mul') and len(args) == 2:
                res = mk_bin({'wrapping_add': 'Add.w', 'wrapping_sub': 'Sub.w', 'wrapping_mul': 'Mul.w'}[nm], args[0], args[1])
            elif d == 'core::ops::Not::not' and len(args) == 1:
                res = mk_not(args[0])
            elif d == 'num_traits::AsPrimitive::as_' or d == 'num_traits::cast::AsPrimitive::as_':
                to = None
                if len(c['args']) > 1 and 'ty' in c['args'][1]:
                    to = self.F.ty_s(c['args'][1]['ty'])
                frm = self.F.ty_s(c['args'][0]['ty']) if c['args'] and 'ty' in c['args'][0] else None
                res = ('cast', 'as_', args[0], to, frm)
            elif nm in CONST_FNS and not args and c.get('trait') in CONST_FN_TRAITS:
                ty = self.F.ty_s(c['args'][0]['ty']) if c['args'] and 'ty' in c['args'][0] else '?'
                res = ('k', nm, ty)
            elif d in ('num_traits::zero', 'num_traits::one', 'num_traits::identities::zero', 'num_traits::identities::one') and not args:
                ty = self.F.ty_s(c['args'][0]['ty']) if c['args'] and 'ty' in c['args'][0] else '?'
                res = ('k', nm, ty)
            elif d in ('num_traits::Zero::is_zero', 'num_traits::identities::Zero::is_zero') and len(args) == 1:
                # contract of num_traits::Zero: `x.is_zero()` <=> `x == zero()`
                ty = self.F.ty_s(c['args'][0]['ty']) if c['args'] and 'ty' in c['args'][0] else '?'
                res = mk_bin('Eq', self.deref_val(st, args[0]), ('k', 'zero', ty))
            elif d == 'core::ops::Try::branch':
                res = mk_try(args[0])
            elif d == 'core::ops::FromResidual::from_residual':
                res = ('err_of', args[0][1]) if args[0][0] == 'residual' else ('err_of', args[0])
                if res[1][0] == 'err_of':
                    res = res[1]          # an error that is merely passed up through another `?` is the same error
            elif nm in ('is_some', 'is_none', 'is_ok', 'is_err') and d.startswith(('core::option::Option', 'core::result::Result')):
                v = self.deref_val(st, args[0])
                which = {'is_some': ('Some', True), 'is_none': ('Some', False), 'is_ok': ('Ok', True), 'is_err': ('Ok', False)}[nm]
                t = mk_is(which[0], v)
                res = t if which[1] else mk_not(t)
            elif nm == 'len' and len(args) == 1 and d.startswith(('core::slice', 'alloc::vec::Vec', 'smallvec::SmallVec')):
                res = mk_len(self.deref_val(st, args[0]))
        uid = None
        if res is None:
            if mut_paths or c is None:
                st.uid += 1
                uid = (blk, st.uid)
            res = ('call', name, tuple(self.deref_val(st, a) if a[0] == 'ref' else a for a in args), uid)
        ev = {'kind': 'call', 'block': blk, 'callee': name, 'name': c.get('name') if c else None,
              'fn': c, 'args': args, 'args_val': [self.deref_val(st, a) for a in args], 'result': res, 'mut_paths': list(mut_paths), 'loops': st.loops_seen,
              'span': term['span']['at'], 'unsafe': bool(c and c.get('unsafe')), 'uid': uid}
        st.events.append(ev)
        if uid is not None:
            slice_args = set()
            for a, ao in zip(args, term['args']):
                if a[0] == 'ref' and a[2] and ao['k'] in ('copy', 'move') and not ao['place']['p']:
                    ty = self.F.ty(self.body.local_ty(ao['place']['l']))
                    if ty.get('k') == 'ref' and 'inner' in ty and self.F.ty(ty['inner']).get('k') == 'slice':
                        slice_args.add(a[1])
            for p in mut_paths:
                if p in slice_args:
                    # a `&mut [T]` can change elements but never the length (DESIGN R1: ELEM vs LEN)
                    self.write(st, p, ('elems', uid, self.read(st, p)))
                else:
                    self.write(st, p, ('post', uid, p))
        return res

    # ---- loop abstraction
    def _loop_written(self, head):
        """(locals assigned, list of (local, proj) places written/borrowed mutably through derefs) in the loop."""
        if head in self.loop_writes:
            return self.loop_writes[head]
        blocks = self.loops[head]
        places = []
        for b in blocks:
            blk = self.body.blocks[b]
            for s in blk['stmts']:
                if s['k'] == 'assign':
                    places.append(s['place'])
                    rv = s['rv']
                    if rv['k'] in ('ref', 'rawptr') and rv['mut']:
                        places.append(rv['place'])
                elif s['k'] == 'setdiscr':
                    places.append(s['place'])
            t = blk['term']
            if t['k'] == 'call':
                places.append(t['dest'])
            elif t['k'] == 'drop':
                pass
        self.loop_writes[head] = places
        return places

    def havoc_loop(self, st, head):
        places = self._loop_written(head)
        paths = []
        for p in places:
            try:
                paths.append(self.canon(st, p['l'], p['p']))
            except Exception:
                paths.append((p['l'],))
        # havoc shortest paths first so that longer ones are not resurrected
        paths = sorted(set(paths), key=lambda x: (len(x), repr(x)))
        pre = {}
        for path in paths:
            pre[path] = self.read(st, path)
        for path in paths:
            self.write(st, path, ('loop', head, path))
        return pre

    # ---- main driver
    def run(self, entry_store=None):
        """Returns list of PathResult. Raises TooManyPaths."""
        results = []
        st = State()
        if entry_store:
            st.store.update(entry_store)
        stack = [(0, st)]
        while stack:
            blk, st = stack.pop()
            while True:
                if blk in st.blocks:
                    if blk in self.loops and blk in st.loops_seen:
                        results.append(PathResult('backedge', None, st.events, st.preds, st.store, st.blocks + [blk], blk))
                        break
                    if blk not in self.loops:
                        # irreducible revisit: cut
                        results.append(PathResult('cut', None, st.events, st.preds, st.store, st.blocks + [blk], blk))
                        break
                if blk in self.loops and blk not in st.loops_seen:
                    pre = self.havoc_loop(st, blk)
                    st.loops_seen = st.loops_seen + (blk,)
                    st.events.append({'kind': 'loop_enter', 'block': blk, 'head': blk, 'pre': pre})
                st.blocks.append(blk)
                b = self.body.blocks[blk]
                for s in b['stmts']:
                    if s['k'] == 'assign':
                        p = s['place']
                        t = self.rvalue(st, s['rv'])
                        if s['rv']['k'] == 'agg' and s['rv']['ak'] == 'adt' and s['rv'].get('local'):
                            st.events.append({'kind': 'literal', 'block': blk, 'adt': s['rv']['adt'], 'variant': s['rv']['vname'],
                                              'fields': t[2], 'fnames': t[3], 'vals': tuple(self.deref_val(st, f) for f in t[2]),
                                              'span': s['span']['at'], 'loops': st.loops_seen,
                                              'npreds': len(st.preds)})
                        path = self.canon(st, p['l'], p['p'])
                        self.write(st, path, t)
                        if self._is_memory(path):
                            st.events.append({'kind': 'write', 'block': blk, 'path': path, 'value': t,
                                              'span': s['span']['at'], 'loops': st.loops_seen})
                        elif len(path) >= 2 and path[1] == 'deref':
                            # store through a reference obtained from an opaque call (e.g. `*v.get_unchecked_mut(i) = x`)
                            base = self._lookup_exact(st, (path[0],))
                            if base is not None:
                                st.events.append({'kind': 'write_ref', 'block': blk, 'ref': base, 'proj': path[2:], 'value': t,
                                                  'span': s['span']['at'], 'loops': st.loops_seen})
                    elif s['k'] == 'setdiscr':
                        p = s['place']
                        path = self.canon(st, p['l'], p['p'])
                        self.write(st, path, ('setdiscr', s['variant']))
                        if self._is_memory(path):
                            st.events.append({'kind': 'write', 'block': blk, 'path': path, 'value': ('setdiscr', s['variant']),
                                              'span': s['span']['at'], 'loops': st.loops_seen})
                term = b['term']
                k = term['k']
                if k == 'goto':
                    blk = term['t']
                    continue
                if k == 'return':
                    results.append(PathResult('return', self.read(st, (0,)), st.events, st.preds, st.store, st.blocks, blk))
                    break
                if k in ('unreachable', 'resume', 'terminate', 'other'):
                    results.append(PathResult('unreachable', None, st.events, st.preds, st.store, st.blocks, blk))
                    break
                if k == 'drop':
                    p = term['place']
                    st.events.append({'kind': 'drop', 'block': blk, 'path': self.canon(st, p['l'], p['p']),
                                      'ty': self.F.ty_s(term['pty']), 'span': term['span']['at'], 'loops': st.loops_seen})
                    blk = term['t']
                    continue
                if k == 'assert':
                    c = self.operand(st, term['cond'])
                    if not (c[0] == 'ovf' or term['msg'].startswith('Overflow')):
                        st.events.append({'kind': 'assert', 'block': blk, 'cond': c, 'expected': term['expected'], 'msg': term['msg']})
                        st.preds.append((c, int(term['expected']), blk))
                    else:
                        # overflow check of a built-in operator: only present in checked builds, so no predicate may be
                        # derived from it; rules that care about panics / wrap-around look at the event
                        st.events.append({'kind': 'ovf_check', 'block': blk, 'cond': c, 'msg': term['msg'], 'span': term['span']['at'] if 'span' in term else ''})
                    blk = term['t']
                    continue
                if k in ('call', 'tailcall'):
                    res = self.model_call(st, term, blk)
                    if k == 'tailcall' or term.get('t') is None:
                        results.append(PathResult('diverge', None, st.events, st.preds, st.store, st.blocks, blk))
                        break
                    d = term['dest']
                    path = self.canon(st, d['l'], d['p'])
                    self.write(st, path, res)
                    if self._is_memory(path):
                        st.events.append({'kind': 'write', 'block': blk, 'path': path, 'value': res,
                                          'span': term['span']['at'], 'loops': st.loops_seen})
                    blk = term['t']
                    continue
                if k == 'switch':
                    t = self.operand(st, term['op'])
                    targets = term['targets']
                    if is_int(t):
                        nxt = term['otherwise']
                        for v, bb in targets:
                            if v == t[1]:
                                nxt = bb
                        blk = nxt
                        continue
                    key = tkey(t)
                    known = st.pred_index.get(key)
                    options = []
                    vals = [v for v, _ in targets]
                    for v, bb in targets:
                        options.append((v, bb))
                    if vals == [0] and self._is_bool_operand(term['op']):
                        options.append((1, term['otherwise']))
                    else:
                        options.append((('not', tuple(vals)), term['otherwise']))
                    feasible = []
                    for v, bb in options:
                        if self.body.blocks[bb]['cleanup']:
                            continue
                        if known is not None:
                            if isinstance(known, tuple) and known and known[0] == 'not':
                                if isinstance(v, tuple):
                                    ok = True
                                else:
                                    ok = v not in known[1]
                            else:
                                if isinstance(v, tuple):
                                    ok = known not in v[1]
                                else:
                                    ok = (v == known)
                            if not ok:
                                continue
                        # otherwise-branch leading straight to `unreachable` carries no behaviour
                        if isinstance(v, tuple) and self._is_unreachable(bb):
                            continue
                        feasible.append((v, bb))
                    # negated-predicate consistency: Not(x) vs x
                    feasible = self._prune_negations(st, t, feasible)
                    if not feasible:
                        results.append(PathResult('infeasible', None, st.events, st.preds, st.store, st.blocks, blk))
                        break
                    self.n_paths += len(feasible) - 1
                    if self.n_paths > self.max_paths:
                        raise TooManyPaths(self.body.defpath)
                    first = True
                    cur = st
                    for v, bb in feasible[1:]:
                        s2 = cur.clone()
                        self._assume(s2, t, v, blk, term)
                        stack.append((bb, s2))
                    v, bb = feasible[0]
                    self._assume(cur, t, v, blk, term)
                    blk = bb
                    continue
                raise RuntimeError('unknown terminator ' + k)
        return results

    def _operand_is_float(self, o):
        if o['k'] in ('copy', 'move') and not o['place']['p']:
            return self.F.ty(self.body.local_ty(o['place']['l'])).get('k') == 'float'
        if o['k'] == 'const':
            return bool(o.get('float'))
        return False

    def _is_bool_operand(self, o):
        if o['k'] in ('copy', 'move') and not o['place']['p']:
            return self.F.ty(self.body.local_ty(o['place']['l'])).get('k') == 'bool'
        return False

    def _is_unreachable(self, bb):
        b = self.body.blocks[bb]
        return not b['stmts'] and b['term']['k'] == 'unreachable'

    def _prune_negations(self, st, t, feasible):
        # if Not(t') == t with t' decided, or t == bin cmp whose negation is decided
        neg = mk_not(t) if t[0] in ('bin', 'un', 'is') else None
        if neg is None:
            return feasible
        known = st.pred_index.get(tkey(neg))
        if known is None or isinstance(known, tuple):
            return feasible
        # neg has value `known` (0/1) -> t has value 1-known
        want = 1 - known if known in (0, 1) else None
        if want is None:
            return feasible
        out = []
        for v, bb in feasible:
            if isinstance(v, tuple):
                if want not in v[1]:
                    out.append((v, bb))
            elif v == want:
                out.append((v, bb))
        return out

    def _assume(self, st, t, v, blk, term):
        st.preds.append((t, v, blk))
        st.pred_index[tkey(t)] = v
        st.events.append({'kind': 'branch', 'block': blk, 'term': t, 'value': v, 'span': term['span']['at'], 'loops': st.loops_seen})

    def final_read(self, res, path):
        """Value of a canonical path in the final store of a PathResult."""
        st = State()
        st.store = res.store
        return self.read(st, path)

    def final_map(self, res, term):
        """Mapping of every initial-memory atom ('in', P) occurring in `term` to its value at the end of `res`."""
        m = {}
        for x in subterms(term):
            if isinstance(x, tuple) and x and x[0] == 'in' and x not in m:
                m[x] = self.final_read(res, x[1])
        return m

    def _is_memory(self, path):
        """True for paths that denote caller-visible memory (behind an argument reference) or the return place."""
        if len(path) >= 2 and path[1] == 'deref' and isinstance(path[0], int) and 1 <= path[0] <= self.body.arg_count:
            return True
        return False


LEN_PRESERVING = ('::to_vec', '::into_boxed_slice', '::into_vec', '::clone', '::to_owned', '::into_iter', '::iter', '::rev')


def mk_len(v):
    n = 0
    while n < 8:
        n += 1
        if v[0] == 'elems':
            v = v[2]
            continue
        if v[0] == 'partial' and all(pth and isinstance(pth[0], tuple) and pth[0][0] in ('idx', 'cidx') for pth, _ in v[2]):
            v = v[1]          # element stores do not change the length
            continue
        if v[0] == 'call' and v[2] and any(v[1].endswith(sfx) for sfx in LEN_PRESERVING if sfx in ('::to_vec', '::into_boxed_slice', '::into_vec', '::to_owned')):
            v = v[2][0]
            continue
        break
    return ('len', v)


def subst(t, mapping):
    """Replace sub-terms that are keys of `mapping` (term -> term); rebuilds normalised bin/len nodes."""
    if not isinstance(t, tuple) or not t:
        return t
    if t in mapping:
        return mapping[t]
    h = t[0] if isinstance(t[0], str) else None
    if h == 'bin':
        return mk_bin(t[1], subst(t[2], mapping), subst(t[3], mapping))
    if h == 'len':
        return mk_len(subst(t[1], mapping))
    if h == 'un' and t[1] == 'Not':
        return mk_not(subst(t[2], mapping))
    if h in ('int', 'c', 'k', 'arg', 'in', 'fnitem', 'uninit'):
        return t
    return tuple(subst(x, mapping) if isinstance(x, tuple) else x for x in t)


def mk_try(x):
    if x[0] == 'agg' and isinstance(x[1], tuple) and x[1][0] == 'adt':
        pass
    return ('try', x)


def mk_unwrap(x):
    if x[0] == 'agg' and isinstance(x[1], tuple) and x[1][0] == 'adt' and x[1][2] in ('Ok', 'Some') and x[2]:
        return x[2][0]
    if x[0] == 'call' and isinstance(x[1], str) and x[1].startswith('core::num::') and x[1].endswith(('::checked_sub', '::checked_add')) and len(x[2]) == 2:
        # the value of a successful checked operation is the plain result
        return mk_bin('Sub' if x[1].endswith('checked_sub') else 'Add', x[2][0], x[2][1])
    return ('unwrap', x)


def mk_residual(x):
    return ('residual', x)


TWO_VARIANT_CANON = {
    # enum variants -> (canonical predicate name, value of predicate for this variant)
    'None': ('Some', 0), 'Some': ('Some', 1), 'Ok': ('Ok', 1), 'Err': ('Ok', 0),
    'Continue': ('Continue', 1), 'Break': ('Continue', 0),
}


def mk_is(name, v):
    if v[0] == 'agg' and isinstance(v[1], tuple) and v[1][0] == 'adt':
        vn = v[1][2]
        if vn in TWO_VARIANT_CANON and TWO_VARIANT_CANON[vn][0] == name:
            return mk_int(TWO_VARIANT_CANON[vn][1])
    if v[0] == 'try' and name == 'Continue':
        return ('is', 'Continue', v)
    return ('is', name, v)


def mk_discr(v, variants):
    if v[0] == 'agg' and isinstance(v[1], tuple) and v[1][0] == 'adt' and variants:
        for dv, vn in variants:
            if vn == v[1][2]:
                return mk_int(dv)
    if v[0] == 'setdiscr':
        return mk_int(v[1])
    if v[0] == 'try' and variants:
        # Try::branch of a value whose shape is known: Continue for Ok/Some, Break for Err/None/err_of
        inner = v[1]
        which = None
        if inner[0] == 'err_of':
            which = 'Break'
        elif inner[0] == 'agg' and isinstance(inner[1], tuple) and inner[1][0] == 'adt':
            which = {'Ok': 'Continue', 'Some': 'Continue', 'Err': 'Break', 'None': 'Break'}.get(inner[1][2])
        if which:
            for dv, vn in variants:
                if vn == which:
                    return mk_int(dv)
    if v[0] == 'err_of' and variants:
        # value built by `?` (FromResidual): Err(..) of a Result, None of an Option
        for want in ('Err', 'None', 'Break'):
            for dv, vn in variants:
                if vn == want:
                    return mk_int(dv)
    return ('discr', v, tuple((dv, vn) for dv, vn in variants) if variants else None)


def discr_variant(pred_term, value):
    """For a branch on a ('discr', v, variants) term with a concrete value, the variant name taken."""
    if pred_term[0] == 'discr' and pred_term[2] and not isinstance(value, tuple):
        for dv, vn in pred_term[2]:
            if dv == value:
                return vn
    if pred_term[0] == 'discr' and pred_term[2] and isinstance(value, tuple):
        rest = [vn for dv, vn in pred_term[2] if dv not in value[1]]
        if len(rest) == 1:
            return rest[0]
    return None


# ---------------------------------------------------------------- affine forms

def affine(t):
    """term -> (dict atom_key -> (coef, atom_term), const) or None if not affine."""
    if is_int(t):
        return ({}, t[1])
    if t[0] == 'bin' and t[1].split('.')[0] in ('Add', 'Sub'):
        a = affine(t[2])
        b = affine(t[3])
        if a is None or b is None:
            return None
        sign = 1 if t[1].split('.')[0] == 'Add' else -1
        d = dict(a[0])
        for k, (c, at) in b[0].items():
            c0 = d.get(k, (0, at))[0]
            d[k] = (c0 + sign * c, at)
        d = {k: v for k, v in d.items() if v[0] != 0}
        return (d, a[1] + sign * b[1])
    if t[0] == 'bin' and t[1].split('.')[0] == 'Mul':
        for x, y in ((t[2], t[3]), (t[3], t[2])):
            if is_int(x):
                a = affine(y)
                if a is None:
                    return None
                return ({k: (c * x[1], at) for k, (c, at) in a[0].items() if c * x[1] != 0}, a[1] * x[1])
    return ({tkey(t): (1, t)}, 0)


def affine_sub(a, b):
    d = dict(a[0])
    for k, (c, at) in b[0].items():
        c0 = d.get(k, (0, at))[0]
        d[k] = (c0 - c, at)
    d = {k: v for k, v in d.items() if v[0] != 0}
    return (d, a[1] - b[1])


def affine_str(a):
    parts = ['%s*%s' % (c, show(at)) if c != 1 else show(at) for k, (c, at) in sorted(a[0].items())]
    if a[1] or not parts:
        parts.append(str(a[1]))
    return ' + '.join(parts)
