"""Control-flow graph utilities over extracted MIR bodies (non-cleanup blocks only;
unwind edges are ignored: a panic is an allowed way to fail for every property here)."""


def succs_of(term):
    k = term['k']
    if k == 'goto':
        return [term['t']]
    if k == 'switch':
        out = []
        for _, b in term['targets']:
            if b not in out:
                out.append(b)
        if term['otherwise'] not in out:
            out.append(term['otherwise'])
        return out
    if k in ('call', 'drop', 'assert'):
        return [term['t']] if term.get('t') is not None else []
    return []


class CFG:
    def __init__(self, body):
        self.body = body
        n = len(body.blocks)
        self.n = n
        self.succ = [[] for _ in range(n)]
        self.pred = [[] for _ in range(n)]
        for i, b in enumerate(body.blocks):
            if b['cleanup']:
                continue
            for s in succs_of(b['term']):
                if not body.blocks[s]['cleanup']:
                    self.succ[i].append(s)
        # reachability from entry
        seen = set()
        st = [0]
        while st:
            x = st.pop()
            if x in seen:
                continue
            seen.add(x)
            st.extend(self.succ[x])
        self.reach = seen
        for i in range(n):
            if i not in seen:
                self.succ[i] = []
        for i in seen:
            for s in self.succ[i]:
                self.pred[s].append(i)
        self.exits = [i for i in seen if not self.succ[i]]
        self.returns = [i for i in seen if body.blocks[i]['term']['k'] == 'return']
        self._dom = None
        self._pdom = None
        self._rpo = None

    # ---- orders
    def rpo(self):
        if self._rpo is None:
            order = []
            seen = set()

            def dfs(x):
                stack = [(x, iter(self.succ[x]))]
                seen.add(x)
                while stack:
                    node, it = stack[-1]
                    adv = False
                    for s in it:
                        if s not in seen:
                            seen.add(s)
                            stack.append((s, iter(self.succ[s])))
                            adv = True
                            break
                    if not adv:
                        order.append(node)
                        stack.pop()
            dfs(0)
            order.reverse()
            self._rpo = order
        return self._rpo

    # ---- dominators (iterative set algorithm; bodies are small)
    def dominators(self):
        if self._dom is None:
            nodes = self.rpo()
            allset = set(nodes)
            dom = {x: set(allset) for x in nodes}
            dom[0] = {0}
            changed = True
            while changed:
                changed = False
                for x in nodes:
                    if x == 0:
                        continue
                    ps = [dom[p] for p in self.pred[x] if p in dom]
                    new = set.intersection(*ps) if ps else set()
                    new = new | {x}
                    if new != dom[x]:
                        dom[x] = new
                        changed = True
            self._dom = dom
        return self._dom

    def dominates(self, a, b):
        d = self.dominators()
        return b in d and a in d[b]

    def post_dominators(self):
        """Post-dominators w.r.t. a virtual exit joined from every exit block (return, unreachable,
        diverging call)."""
        if self._pdom is None:
            nodes = [x for x in self.rpo()]
            EXIT = -1
            allset = set(nodes) | {EXIT}
            pd = {x: set(allset) for x in nodes}
            pd[EXIT] = {EXIT}
            changed = True
            while changed:
                changed = False
                for x in reversed(nodes):
                    ss = list(self.succ[x])
                    sets = [pd[s] for s in ss]
                    if not ss:
                        sets = [pd[EXIT]]
                    new = set.intersection(*sets) | {x}
                    if new != pd[x]:
                        pd[x] = new
                        changed = True
            self._pdom = pd
        return self._pdom

    def control_deps(self):
        """block -> set of (branch block, successor taken) it is control dependent on."""
        pd = self.post_dominators()
        cd = {x: set() for x in self.reach}
        for a in self.reach:
            if len(self.succ[a]) < 2:
                continue
            for s in self.succ[a]:
                # all nodes post-dominating s but not strictly post-dominating a
                for x in pd[s]:
                    if x == -1:
                        continue
                    if x == a or x not in pd[a]:
                        cd[x].add((a, s))
                    # x == a happens for loops
        return cd

    def back_edges(self):
        dom = self.dominators()
        out = []
        for a in self.reach:
            for s in self.succ[a]:
                if s in dom[a]:
                    out.append((a, s))
        return out

    def natural_loop(self, tail, head):
        body = {head}
        st = [tail]
        while st:
            x = st.pop()
            if x in body:
                continue
            body.add(x)
            st.extend(self.pred[x])
        return body

    def loops(self):
        """head -> set of blocks (merged over back edges with the same head)."""
        out = {}
        for a, h in self.back_edges():
            out.setdefault(h, set()).update(self.natural_loop(a, h))
        return out

    def reachable_from(self, start, avoid=()):
        seen = set()
        st = [start]
        while st:
            x = st.pop()
            if x in seen or x in avoid:
                continue
            seen.add(x)
            st.extend(self.succ[x])
        return seen

    def can_reach(self, a, b, avoid=()):
        return b in self.reachable_from(a, avoid)
