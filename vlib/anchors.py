"""Semantic anchor resolution (DESIGN §2 "Instance tables, floors, anchors").

Public API items are found by (self ADT, method name).  *Private* helpers are never found by their name: they are
found through their role - "the crate-local callee of RangeEncoder::into_compressed that receives &mut self",
"the callee of <EncoderGuard as Drop>::drop", "private free functions of the categorical module returning
Result<_, ()>" - so renaming or moving a private helper does not change a verdict.
"""
from .facts import callee

RENC = 'stream::queue::RangeEncoder'
RDEC = 'stream::queue::RangeDecoder'
ANS = 'stream::stack::AnsCoder'


def method(F, adt, name, trait=None):
    out = [b for b in F.bodies if b.promoted is None and b.name == name and b.self_adt == adt and b.dk == 'AssocFn'
           and (trait is None or b.impl_trait == trait) and not b.derived]
    return out[0] if out else None


def local_callees(F, body):
    """[(callee body, block index, call terminator)] for calls to crate-local functions with a body."""
    out = []
    for blk, t in body.calls():
        c = callee(t)
        if not c or not c.get('local'):
            continue
        b = F.by_def.get(c['def'])
        if b is not None:
            out.append((b, blk, t))
    return out


def _first_arg_is_mut_self(body, term):
    """call receives `&mut *self` / `&mut self.field`-less self as its first argument (by MIR shape)."""
    if not term['args']:
        return False
    a = term['args'][0]
    if a['k'] not in ('copy', 'move') or a['place']['p']:
        return False
    t = body.facts.ty(body.local_ty(a['place']['l']))
    return t.get('k') == 'ref' and t.get('mut')


def guard_of(F, adt, view_method):
    """(guard ADT path, constructor body, Drop::drop body) of the guard a `&mut self` view method returns."""
    m = method(F, adt, view_method)
    if m is None:
        return None, None, None
    for cb, blk, t in local_callees(F, m):
        g = cb.self_adt
        if g is None or cb.impl_trait is not None:
            continue
        drop = [b for b in F.bodies if b.promoted is None and b.name == 'drop' and b.self_adt == g and b.impl_trait == 'core::ops::Drop']
        if drop:
            return g, cb, drop[0]
    return None, None, None


def range_encoder_parts(F):
    """Roles around sealing, all resolved from public anchors."""
    p = {}
    p['into_compressed'] = method(F, RENC, 'into_compressed')
    p['num_words'] = method(F, RENC, 'num_words')
    p['is_empty'] = method(F, RENC, 'is_empty')
    g, gnew, gdrop = guard_of(F, RENC, 'get_compressed')
    p['guard'] = g
    p['guard_new'] = gnew
    p['guard_drop'] = gdrop
    # seal: the crate-local callee of into_compressed that gets &mut self
    p['seal'] = None
    if p['into_compressed'] is not None:
        c = [cb for cb, blk, t in local_callees(F, p['into_compressed']) if cb.self_adt == RENC and _first_arg_is_mut_self(p['into_compressed'], t)]
        if len(c) == 1:
            p['seal'] = c[0]
    # unseal: the crate-local `&mut self` callee of the guard's drop - or the drop itself when it undoes the sealing in place
    p['unseal'] = None
    p['unseal_root'] = (1, 'deref')
    if gdrop is not None:
        c = [cb for cb, blk, t in local_callees(F, gdrop) if cb.self_adt == RENC and cb.receiver_kind() == '&mut self']
        if len(c) == 1:
            p['unseal'] = c[0]
        elif not c and g in F.adts:
            fields = [f['name'] for f in F.adts[g]['variants'][0]['fields'] if RENC.rsplit('::', 1)[-1] in F.ty_s(f['ty'])]
            if len(fields) == 1:
                p['unseal'] = gdrop
                p['unseal_root'] = (1, 'deref', ('f', fields[0]), 'deref')
    # num_seal_words: the crate-local, non-trait callee shared by num_words() and unseal()
    p['num_seal_words'] = None
    cands = None
    for user in (p['num_words'], p['unseal']):
        if user is None:
            continue
        s = {cb.defpath for cb, blk, t in local_callees(F, user) if cb.self_adt == RENC and cb.impl_trait is None and cb.receiver_kind() == '&self'}
        cands = s if cands is None else (cands & s)
    if cands and len(cands) == 1:
        p['num_seal_words'] = F.by_def[list(cands)[0]]
    return p


def window_reader(F):
    """The routine RangeDecoder::seek uses to re-read the window (crate-local callee handed &mut bulk)."""
    sk = method(F, RDEC, 'seek', 'Seek')
    if sk is None:
        return None, None
    c = [cb for cb, blk, t in local_callees(F, sk) if cb.self_adt == RDEC]
    return (c[0] if len(c) == 1 else None), sk


def ans_import_loops(F):
    """from_binary (public) and the private helper from_compressed uses to assemble the initial state."""
    fb = method(F, ANS, 'from_binary')
    fc = method(F, ANS, 'from_compressed')
    helper = None
    if fc is not None:
        c = [cb for cb, blk, t in local_callees(F, fc) if cb.self_adt == ANS and cb.impl_trait is None]
        if len(c) == 1:
            helper = c[0]
    return fb, helper


def validators(F):
    """Shared validators of the categorical module: private free functions returning Result<_, ()>.
    Returns dict role -> body with roles 'fixed_point' (takes the infer-last bool), 'float_fast', 'float_perfect'."""
    out = {}
    mods = 'stream::model::categorical::'
    for b in F.bodies:
        if b.promoted is not None or b.dk != 'Fn' or not b.defpath.startswith(mods) or '::' in b.defpath[len(mods):]:
            continue
        if b.vis == 'pub':
            continue
        sig = b.raw.get('sig', '')
        if not (' -> core::result::Result<' in sig and sig.rstrip().endswith(', ()>')):
            continue
        args = sig[sig.index('(') + 1:sig.index(') ->')]
        if args.rstrip().endswith('bool'):
            out['fixed_point'] = b
        elif 'Option<' in args:
            out['float_fast'] = b
        elif args.strip().startswith('&['):
            out['float_perfect'] = b
    return out


def validator_defs(F):
    return {b.defpath: role for role, b in validators(F).items()}


def state_chunker(F):
    """The crate-local free function AnsCoder::into_compressed uses to turn `state` into words."""
    m = method(F, ANS, 'into_compressed')
    if m is None:
        return None
    c = [cb for cb, blk, t in local_callees(F, m) if cb.dk == 'Fn' and cb.self_adt is None]
    return c[0] if len(c) == 1 else None


_ROLE_CACHE = {}


def role_helpers(F):
    """Def paths of private helpers that rules address by role (never inlined by vlib/inline.py)."""
    k = id(F)
    if k in _ROLE_CACHE:
        return _ROLE_CACHE[k]
    keep = set()
    p = range_encoder_parts(F)
    for name in ('seal', 'unseal', 'num_seal_words'):
        if p.get(name) is not None:
            keep.add(p[name].defpath)
    r, _ = window_reader(F)
    if r is not None:
        keep.add(r.defpath)
    fb, helper = ans_import_loops(F)
    if helper is not None:
        keep.add(helper.defpath)
    ch = state_chunker(F)
    if ch is not None:
        keep.add(ch.defpath)
    for b in validators(F).values():
        keep.add(b.defpath)
    # chain coder: private &mut self helpers of the coding steps (remainders-head flush / refill)
    CH = 'stream::chain::ChainCoder'
    for trait, name in (('stream::Decode', 'decode_symbol'), ('stream::Encode', 'encode_symbol')):
        m = method(F, CH, name, trait)
        if m is not None:
            for cb, blk, t in local_callees(F, m):
                if cb.self_adt == CH and cb.impl_trait is None and cb.vis != 'pub' and cb.receiver_kind() == '&mut self':
                    keep.add(cb.defpath)
    _ROLE_CACHE[k] = keep
    return keep
