"""Difference-bound facts over opaque terms (DESIGN §2: `x - y <= c`, closure by Floyd-Warshall).

Atoms are term keys; ZERO is the constant 0.  Facts are harvested from the branch predicates of
one evaluated path; entailment is decided by shortest paths.  Everything is integer valued
(machine integers that did not overflow: MIR overflow asserts guard the builtin arithmetic).
"""
from . import sym

ZERO = '0'
INF = float('inf')


class DBM:
    def __init__(self):
        self.d = {}       # (x, y) -> c   meaning x - y <= c
        self.atoms = {ZERO}
        self.closed = False
        self.terms = {}

    def add(self, x, y, c):
        if x == y:
            return
        self.atoms.add(x)
        self.atoms.add(y)
        if self.d.get((x, y), INF) > c:
            self.d[(x, y)] = c
            self.closed = False

    def close(self):
        if self.closed:
            return
        A = list(self.atoms)
        d = self.d
        for k in A:
            for i in A:
                ik = d.get((i, k))
                if ik is None:
                    continue
                for j in A:
                    kj = d.get((k, j))
                    if kj is None:
                        continue
                    if d.get((i, j), INF) > ik + kj:
                        d[(i, j)] = ik + kj
        self.closed = True

    def le(self, x, y, c):
        """entails x - y <= c ?"""
        if x == y:
            return c >= 0
        self.close()
        return self.d.get((x, y), INF) <= c

    def inconsistent(self):
        self.close()
        return any(self.d.get((a, a), 0) < 0 for a in self.atoms)

    # ---- term interface
    def split(self, t):
        """term -> (atom key, offset) for terms of the shape atom + const, or None."""
        a = sym.affine(t)
        if a is None:
            return None
        atoms, c = a
        if not atoms:
            return (ZERO, c)
        if len(atoms) == 1:
            (k, (coef, at)), = atoms.items()
            if coef == 1:
                self.terms[k] = at
                return (k, c)
        return None

    # ---- general affine interface: a <= b with a - b of the shape  [+x] [-y] + c
    def _diff(self, a, b):
        fa, fb = sym.affine(a), sym.affine(b)
        if fa is None or fb is None:
            return None
        d, c = sym.affine_sub(fa, fb)
        pos = [(k, at) for k, (co, at) in d.items() if co == 1]
        neg = [(k, at) for k, (co, at) in d.items() if co == -1]
        if len(pos) + len(neg) != len(d) or len(pos) > 1 or len(neg) > 1:
            return None
        for k, at in pos + neg:
            self.terms[k] = at
            if at[0] == 'len':
                self.add(ZERO, k, 0)     # lengths are non-negative
        x = pos[0][0] if pos else ZERO
        y = neg[0][0] if neg else ZERO
        return x, y, c

    def entails_le(self, a, b, strict=False):
        """facts |- a <= b  (a < b when strict)"""
        r = self._diff(a, b)
        if r is None:
            return False
        x, y, c = r
        # x - y + c <= 0  <=>  x - y <= -c
        return self.le(x, y, -c - (1 if strict else 0))

    def assume_le(self, a, b, strict=False):
        r = self._diff(a, b)
        if r is None:
            return False
        x, y, c = r
        self.add(x, y, -c - (1 if strict else 0))
        return True

    def assume_nonneg(self, t):
        s = self.split(t)
        if s:
            # s.atom + off >= 0  ->  0 - atom <= off
            self.add(ZERO, s[0], s[1])

    def assume_cmp(self, op, a, b, value):
        """Record the fact `op(a, b) == value` (op in Lt, Le, Eq, Ne)."""
        if op == 'Lt':
            return self.assume_le(a, b, strict=True) if value else self.assume_le(b, a)
        if op == 'Le':
            return self.assume_le(a, b) if value else self.assume_le(b, a, strict=True)
        if (op == 'Eq' and value) or (op == 'Ne' and not value):
            r1 = self.assume_le(a, b)
            r2 = self.assume_le(b, a)
            return r1 and r2
        if op in ('Eq', 'Ne'):
            # a != b: usable only when one ordering is already known
            if self.entails_le(b, a):
                return self.assume_le(b, a, strict=True)
            if self.entails_le(a, b):
                return self.assume_le(a, b, strict=True)
            return False
        return False

    def entails_cmp(self, op, a, b):
        if op == 'Lt':
            return self.entails_le(a, b, strict=True)
        if op == 'Le':
            return self.entails_le(a, b)
        if op == 'Eq':
            return self.entails_le(a, b) and self.entails_le(b, a)
        if op == 'Ge':
            return self.entails_le(b, a)
        if op == 'Gt':
            return self.entails_le(b, a, strict=True)
        return False


def harvest(dbm, preds, nonneg=True, extra=None):
    """Feeds the predicates of a path ((term, value, block) triples) into the DBM.

    Besides comparisons it understands: `is_Some(get(slice, i))` / `is_Some(get_mut(slice, i))`
    true  =>  i < len(slice); false => i >= len(slice).
    Unsigned atoms are non-negative (all integer terms met here are `usize` or unsigned words).
    """
    pending_ne = []
    for t, v, _ in preds:
        if isinstance(v, tuple):
            # ('not', (0,)) on a boolean-like term means "true"
            if v[0] == 'not' and v[1] == (0,) and t[0] != 'discr':
                v = 1
            elif t[0] != 'discr':
                continue
        _harvest_one(dbm, t, v, pending_ne, nonneg)
    for (a, b) in pending_ne:
        dbm.assume_cmp('Ne', a, b, 1)
    if extra:
        extra(dbm)


def _get_call(t):
    """is t an application of slice::get / get_mut (possibly through Option::cloned / copied)?"""
    n = 0
    while t[0] == 'call' and n < 4:
        name = t[1]
        if name.endswith(('::get', '::get_mut')) and 'slice' in name or name.endswith(('Vec::<T, A>::get',)):
            if len(t[2]) == 2:
                return t[2][0], t[2][1]
        if name.endswith(('::cloned', '::copied')) and t[2]:
            t = t[2][0]
            n += 1
            continue
        break
    return None


def _harvest_one(dbm, t, v, pending_ne, nonneg):
    if t[0] == 'bin' and t[1] in ('Lt', 'Le', 'Eq', 'Ne'):
        a, b = t[2], t[3]
        if nonneg:
            for o in (a, b):
                if not sym.contains(o, lambda x: isinstance(x, tuple) and x and x[0] == 'bin' and x[1].split('.')[0] == 'Sub'):
                    dbm.assume_nonneg(o)
        eff = t[1]
        if (eff == 'Eq' and not v) or (eff == 'Ne' and v):
            pending_ne.append((a, b))
        else:
            dbm.assume_cmp(eff, a, b, 1 if v else 0)
        return
    if t[0] == 'un' and t[1] == 'Not':
        _harvest_one(dbm, t[2], 0 if v else 1, pending_ne, nonneg)
        return
    if t[0] == 'is' and t[1] == 'Some':
        g = _get_call(t[2])
        if g:
            sl, idx = g
            ln = sym.mk_len(sl)
            if nonneg:
                dbm.assume_nonneg(idx)
                dbm.assume_nonneg(ln)
            dbm.assume_cmp('Lt', idx, ln, 1 if v else 0)
        return
    if t[0] == 'discr' and t[2]:
        vn = sym.discr_variant(t, v)
        inner = t[1]
        if vn in ('Continue', 'Break') and inner[0] == 'try':
            # `slice.get(i)?` on an Option: Continue <=> Some
            inner = inner[1]
            vn = 'Some' if vn == 'Continue' else 'None'
        if vn in ('Some', 'None') and inner[0] == 'call' and isinstance(inner[1], str) and inner[1].startswith('core::num::') and inner[1].endswith('::checked_sub') and len(inner[2]) == 2:
            # a.checked_sub(b) is Some  <=>  b <= a   (unsigned operands)
            a, b = inner[2]
            if nonneg:
                dbm.assume_nonneg(a)
                dbm.assume_nonneg(b)
            dbm.assume_cmp('Le', b, a, 1 if vn == 'Some' else 0)
            return
        if vn in ('Some', 'None'):
            g = _get_call(inner)
            if g:
                sl, idx = g
                ln = sym.mk_len(sl)
                if nonneg:
                    dbm.assume_nonneg(idx)
                    dbm.assume_nonneg(ln)
                dbm.assume_cmp('Lt', idx, ln, 1 if vn == 'Some' else 0)
        return
