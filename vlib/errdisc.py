"""Error discipline (R2): no `Result` produced by a call is silently dropped.

For every call to a crate-local function or trait method whose destination has type `Result<_, _>` the result term must be *used* on every path on which the call
happens: it reaches a branch predicate (`?`, match, if let), the returned value, a store to caller-visible memory, or an
argument of another call whose own result is used.  Adaptors that throw the error away (`.ok()`, `.err()`, `.is_ok()`,
`.is_err()`) only count if what they return is used in turn.  `core::mem::drop(x)` is the repository's explicit
"discard on purpose" idiom (Drop impls cannot propagate) and is accepted.
"""
import collections

from . import sym, rules
from .facts import callee

DISCARDING = ('::ok', '::err', '::is_ok', '::is_err')


def scan(F, scope=None):
    """-> (number of call sites examined, [(body, callee, span)] dropped)."""
    n_sites = 0
    dropped = []
    for b in F.bodies:
        if b.promoted is not None or '::tests::' in b.defpath or b.dk not in ('Fn', 'AssocFn', 'Closure'):
            continue
        if scope is not None and not scope(b):
            continue
        try:
            ev, paths = rules.evaluate(b)
        except sym.TooManyPaths:
            continue
        if not paths:
            continue
        body = ev.body
        sites = collections.defaultdict(lambda: [0, 0])
        for r in paths:
            if r.end not in ('return', 'backedge'):
                continue
            terms = [t for t, v, _ in r.preds] + ([r.ret] if r.ret is not None else []) + [e['value'] for e in r.events if e['kind'] in ('write', 'write_ref')]
            calls = [e for e in r.events if e['kind'] == 'call']
            for e in calls:
                t = body.blocks[e['block']]['term']
                if 'dest' not in t or t['dest']['p']:
                    continue
                c = callee(t)
                if not c or not c.get('local'):
                    continue          # only the crate's own fallible operations (incl. its backend / model / codebook traits)
                if not F.ty_s(body.local_ty(t['dest']['l'])).startswith('core::result::Result<'):
                    continue
                key = (e['callee'], (e.get('span') or '').split('-')[0])
                sites[key][0] += 1

                def used(term, depth=0):
                    if any(sym.contains(x, lambda y: y == term) for x in terms):
                        return True
                    if depth > 4:
                        return False
                    for c in calls:
                        if c is e:
                            continue
                        if any(sym.contains(a, lambda y: y == term) for a in (c.get('args_val') or c['args'])):
                            if any(c['callee'].endswith(d) for d in DISCARDING):
                                if used(c['result'], depth + 1):
                                    return True
                                continue
                            return True
                    return False
                if not used(e['result']):
                    sites[key][1] += 1
        for k, (n, d) in sites.items():
            n_sites += 1
            if d:
                dropped.append((b, k[0], k[1]))
    return n_sites, dropped


def check(ctx, F, floor, scope=None, what='crate'):
    n, dropped = scan(F, scope)
    role = 'no Result is silently dropped'
    for b, callee, span in dropped:
        ctx.bad('R2', role, b.defpath, 'the Result of %s is discarded (only error-dropping adaptors such as .ok() consume it): a front-end error such as ImpossibleSymbol / InvalidCodeword / out-of-data, or a backend error, '
                'is swallowed and the caller sees success' % callee, key='R2/dropped-result/%s/%s' % (b.defpath, callee), loc=span)
    key = 'R2/dropped-result/' + what
    if n < floor:
        ctx.unresolved('R2', role, what, 'only %d Result-producing call sites found (floor %d)' % (n, floor), key=key)
    elif not dropped:
        ctx.ok('R2', role, what, '%d Result-producing call sites: each result reaches a branch, the return value, memory, or an explicit core::mem::drop' % n, key=key)
    ctx.extra['result_call_sites'] = n
