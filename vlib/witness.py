"""R9 — compile-fail witnesses (thorough tier).

/verif/witness is a library crate that uses `constriction` as an external user would (path dependency on
/repo, Cargo.lock copied from /repo).  Every witness is a rustdoc `compile_fail,E....` test (error code
honoured on nightly) paired with a compiling twin that differs only in the offending line.  The run is
cached by the hash of /repo's sources and of the witness crate."""
import fcntl
import hashlib
import json
import os
import re
import shutil
import subprocess
import sys

from . import extract

VERIF = extract.VERIF
WDIR = os.path.join(VERIF, 'witness')


def _load_table():
    sys.path.insert(0, WDIR)
    import importlib
    gen = importlib.import_module('gen')
    return gen


def run_all():
    gen = _load_table()
    gen.main()
    h = hashlib.sha256()
    h.update(extract.source_hash(extra='witness').encode())
    with open(os.path.join(WDIR, 'src', 'lib.rs'), 'rb') as f:
        h.update(f.read())
    key = h.hexdigest()[:24]
    cache = os.path.join(extract.CACHE, 'witness-%s.json' % key)
    if os.path.exists(cache):
        with open(cache) as f:
            return json.load(f), gen.W, True
    os.makedirs(extract.CACHE, exist_ok=True)
    with open(os.path.join(extract.CACHE, 'witness.lock'), 'w') as lk:
        fcntl.flock(lk, fcntl.LOCK_EX)
        if os.path.exists(cache):
            with open(cache) as f:
                return json.load(f), gen.W, True
        shutil.copyfile(os.path.join(extract.REPO, 'Cargo.lock'), os.path.join(WDIR, 'Cargo.lock'))
        env = dict(os.environ)
        env['CARGO_TARGET_DIR'] = os.path.join(extract.CACHE, 'witness-target')
        env['CARGO_NET_OFFLINE'] = 'true'
        r = subprocess.run(['cargo', '+nightly', 'test', '--doc', '--offline'], cwd=WDIR, env=env,
                           stdout=subprocess.PIPE, stderr=subprocess.STDOUT, text=True)
        res = {}
        for m in re.finditer(r'^test src/lib\.rs - (w_\w+) \(line \d+\)( - compile fail| - compile)? \.\.\. (\w+)', r.stdout, re.M):
            res[m.group(1)] = m.group(3)
        out = {'results': res, 'exit': r.returncode, 'tail': r.stdout[-3000:] if not res else ''}
        with open(cache, 'w') as f:
            json.dump(out, f)
        for old in os.listdir(extract.CACHE):
            if old.startswith('witness-') and old.endswith('.json') and old != os.path.basename(cache):
                try:
                    if os.path.getmtime(os.path.join(extract.CACHE, old)) < os.path.getmtime(cache) - 86400:
                        os.remove(os.path.join(extract.CACHE, old))
                except OSError:
                    pass
        return out, gen.W, False


def run(ctx, prop):
    out, table, cached = run_all()
    res = out['results']
    if not res:
        ctx.bad('R9', 'witness harness', 'witness crate', 'the witness crate did not build/run: ' + out.get('tail', '')[-600:], key='R9/harness/' + prop)
        return
    n = 0
    for name, props, code, what, setup, fail, twin in table:
        if prop not in props:
            continue
        n += 1
        key = 'R9/witness/%s' % name
        f = res.get('w_%s_fail' % name)
        t = res.get('w_%s_twin' % name)
        if f == 'ok' and t == 'ok':
            ctx.ok('R9', what, 'w_' + name, 'does not compile with %s; twin (only the offending line differs) compiles' % code, key=key)
        elif t != 'ok':
            ctx.unresolved('R9', what, 'w_' + name, 'the compiling twin no longer builds (%s): witness is not meaningful on this tree' % t, key=key)
        else:
            ctx.bad('R9', what, 'w_' + name, 'the witness now COMPILES (or fails with a different error than %s): the guard it witnesses is gone. Offending line: %s' % (code, fail[:160]), key=key)
    for name, props, code, what, setup, strong, pline, ctrl in getattr(_load_table(), 'A', []):
        if prop not in props:
            continue
        n += 1
        key = 'R9/const-assertion/%s' % name
        f, t, c = res.get('w_%s_fail' % name), res.get('w_%s_twin' % name), res.get('w_%s_ctrl' % name)
        if c != 'ok':
            ctx.unresolved('R9', what, 'w_' + name, 'the control (same setup, trivially true assertion) does not build (%s): the harness no longer matches the public API' % c, key=key)
        elif t != 'ok':
            ctx.bad('R9', what, 'w_' + name, 'the compiler evaluates `%s` to false on this tree (the control with the same setup builds)' % pline, key=key)
        elif f != 'ok':
            ctx.unresolved('R9', what, 'w_' + name, 'the one-notch-stronger assertion also builds: the presets became more conservative; the property holds, the tightness control does not', key=key)
        else:
            ctx.ok('R9', what, 'w_' + name, '`%s` builds, `%s` fails with %s' % (pline, strong, code), key=key)
    ctx.extra['witnesses_run'] = n
    ctx.extra['witness_cache_hit'] = cached
