"""R9 — compile-fail witnesses (thorough tier). Placeholder until /verif/witness is built."""


def run(ctx, prop):
    ctx.notes.append('witness crate not built yet')
