"""R4 — structural (DAG) equality of two bodies after normalisation (DESIGN §3 R4).

fingerprint(body) is the set of per-path summaries (predicates, impure calls, returned term) with
  * call identities stripped,
  * crate-local impl methods named by the trait method they implement,
  * closures replaced by the fingerprint of their bodies (captured values kept),
so two literal clones (e.g. an overriding method and the trait default) compare equal while any
change of an operand, operator, constant, callee or branch does not.
Structural equality is sufficient, not necessary, for semantic equality (stated in the evidence).
"""
from . import sym, rules, effects


def short_ty(ty):
    """`<Self as Trait<..>>::Probability` and `Probability` name the same role in a default body and in an impl."""
    if isinstance(ty, str) and ty.startswith('<') and '>::' in ty:
        return ty.rsplit('>::', 1)[1]
    return ty


class Canon:
    def __init__(self, F, rename=None, depth=0):
        self.F = F
        self.rename = rename or {}
        self.depth = depth
        self._closure_cache = {}

    def callee_name(self, name):
        if name in self.rename:
            return self.rename[name]
        b = self.F.by_def.get(name)
        if b is not None and b.impl_trait and b.name:
            return '%s::%s' % (b.impl_trait, b.name)
        return name

    def closure_fp(self, cdef):
        if cdef in self._closure_cache:
            return self._closure_cache[cdef]
        b = self.F.by_def.get(cdef)
        if b is None or self.depth > 3:
            fp = ('closure?',)
        else:
            self._closure_cache[cdef] = ('rec',)
            fp = fingerprint(b, Canon(self.F, self.rename, self.depth + 1))
        self._closure_cache[cdef] = fp
        return fp

    def term(self, t):
        def f(n):
            if not n:
                return None
            if n[0] == 'call':
                return ('call', self.callee_name(n[1]), n[2], None)
            if n[0] in ('post', 'elems') and n[1] is not None:
                return (n[0], None) + n[2:]
            if n[0] == 'agg' and isinstance(n[1], tuple) and n[1][0] == 'closure':
                return ('closure', self.closure_fp(n[1][1]), n[2])
            if n[0] == 'fnitem':
                return ('fnitem', self.callee_name(n[1]))
            if n[0] == 'loop':
                return ('loop', None, n[2])
            if n[0] == 'k' and len(n) == 3:
                return ('k', n[1], short_ty(n[2]))
            if n[0] == 'cast' and len(n) >= 4 and isinstance(n[3], str):
                return ('cast', n[1], n[2], short_ty(n[3]), short_ty(n[4]) if len(n) > 4 else None)
            return None
        return effects.rebuild(t, f)


HOLE = ('hole',)


def _resmap_form(body, ev, paths):
    """(X, T) if the body is `Result::map(X, |v| T)` in combinator or in match form (T mentions the payload as HOLE), else None."""
    rets = [r for r in paths if r.end == 'return']
    if len(rets) != len([r for r in paths if r.end in ('return', 'backedge', 'diverge')]):
        return None
    pure = lambda r: not any(e['kind'] == 'write' or (e['kind'] == 'call' and e.get('uid') is not None) for e in r.events)
    # combinator form
    if len(rets) == 1 and not rets[0].preds and rets[0].ret is not None:
        t = rets[0].ret
        if t[0] == 'call' and str(t[1]).endswith('Result::<T, E>::map') and len(t[2]) == 2 and t[2][1][0] == 'agg' and isinstance(t[2][1][1], tuple) and t[2][1][1][0] == 'closure':
            X, cl = t[2][0], t[2][1]
            ib = body.facts.by_def.get(cl[1][1])
            if ib is None:
                return None
            iev, ip = rules.evaluate(ib)
            irets = [r for r in ip or [] if r.end == 'return']
            if len(irets) != 1 or irets[0].preds or not pure(irets[0]) or len(ip) != 1:
                return None
            caps = cl[2]

            def sub(n):
                if n == ('arg', 2) or n == ('in', (2,)):
                    return HOLE
                if n and n[0] == 'in' and n[1] and n[1][0] == 1 and len(n[1]) >= 2 and isinstance(n[1][1], tuple) and n[1][1][0] == 'f':
                    k = int(n[1][1][1])
                    if k < len(caps):
                        c = caps[k]
                        rest = n[1][2:]
                        if c[0] == 'ref' and rest[:1] == ('deref',):
                            v = ev.final_read(rets[0], tuple(c[1]))
                            if not rest[1:]:
                                return v
                            if v[0] == 'in':
                                return ('in', v[1] + tuple(rest[1:]))
                        elif not rest:
                            return c
                return None
            return X, effects.rebuild(irets[0].ret, sub)
        return None
    # match form
    if len(rets) == 2 and all(len(r.preds) == 1 and pure(r) and r.ret is not None for r in rets):
        (t0, v0, _), (t1, v1, _) = rets[0].preds[0], rets[1].preds[0]
        if t0 != t1 or t0[0] != 'discr':
            return None
        X = t0[1]
        arms = {sym.discr_variant(t0, v0): rets[0].ret, sym.discr_variant(t1, v1): rets[1].ret}
        if set(arms) != {'Ok', 'Err'} or X[0] != 'in':
            return None
        okr, errr = arms['Ok'], arms['Err']
        is_variant = lambda a, name: a[0] == 'agg' and isinstance(a[1], tuple) and a[1][0] == 'adt' and a[1][1].endswith('Result') and a[1][2] == name and len(a[2]) == 1
        if not is_variant(okr, 'Ok') or not is_variant(errr, 'Err'):
            return None
        if errr[2][0] != ('in', X[1] + (('dc', 'Err'), ('f', '0'))):
            return None
        payload = ('in', X[1] + (('dc', 'Ok'), ('f', '0')))
        return X, effects.rebuild(okr[2][0], lambda n: HOLE if n == payload else None)
    return None


def fingerprint(body, canon=None):
    canon = canon or Canon(body.facts)
    ev, paths = rules.evaluate(body)
    if paths is None:
        return ('too-many-paths', body.defpath)
    rm = _resmap_form(body, ev, paths)
    if rm is not None:
        # `x.map(|v| T(v))` and `match x { Ok(v) => Ok(T(v)), Err(e) => Err(e) }` are one function
        return frozenset({('resmap', repr(canon.term(rm[0])), repr(canon.term(rm[1])))})
    out = set()
    for r in paths:
        if r.end not in ('return', 'backedge', 'diverge'):
            continue
        preds = tuple(sorted((repr(canon.term(t)), repr(v)) for t, v, _ in r.preds))
        calls = tuple(repr((canon.callee_name(e['callee']), tuple(canon.term(a) for a in e['args_val'])))
                      for e in r.events if e['kind'] == 'call' and e.get('uid') is not None)
        writes = tuple(sorted(repr((e['path'][1:], canon.term(e['value']))) for e in r.events if e['kind'] == 'write'))
        ret = repr(canon.term(r.ret)) if r.ret is not None else None
        out.add((r.end, preds, calls, writes, ret))
    return frozenset(out)


def diff(fa, fb, limit=2):
    """Human-readable difference of two fingerprints."""
    if isinstance(fa, tuple) or isinstance(fb, tuple):
        return 'fingerprint unavailable: %s / %s' % (fa if isinstance(fa, tuple) else 'ok', fb if isinstance(fb, tuple) else 'ok')
    onlya = list(fa - fb)[:limit]
    onlyb = list(fb - fa)[:limit]
    msg = []
    for x in onlya:
        msg.append('only in first: ret=%s preds=%s' % (str(x[4])[:300], str(x[1])[:200]))
    for x in onlyb:
        msg.append('only in second: ret=%s preds=%s' % (str(x[4])[:300], str(x[1])[:200]))
    return ' | '.join(msg)
