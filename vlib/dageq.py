"""R4 — structural (DAG) equality of two bodies after normalisation (DESIGN §3 R4).

fingerprint(body) is the set of per-path summaries (predicates, impure calls, returned term) with
  * call identities stripped,
  * crate-local impl methods named by the trait method they implement,
  * closures replaced by the fingerprint of their bodies (captured values kept),
so two literal clones (e.g. an overriding method and the trait default) compare equal while any
change of an operand, operator, constant, callee or branch does not.
Structural equality is sufficient, not necessary, for semantic equality (stated in the evidence).
"""
from . import sym, rules, effects


def short_ty(ty):
    """`<Self as Trait<..>>::Probability` and `Probability` name the same role in a default body and in an impl."""
    if isinstance(ty, str) and ty.startswith('<') and '>::' in ty:
        return ty.rsplit('>::', 1)[1]
    return ty


class Canon:
    def __init__(self, F, rename=None, depth=0):
        self.F = F
        self.rename = rename or {}
        self.depth = depth
        self._closure_cache = {}

    def callee_name(self, name):
        if name in self.rename:
            return self.rename[name]
        b = self.F.by_def.get(name)
        if b is not None and b.impl_trait and b.name:
            return '%s::%s' % (b.impl_trait, b.name)
        return name

    def closure_fp(self, cdef):
        if cdef in self._closure_cache:
            return self._closure_cache[cdef]
        b = self.F.by_def.get(cdef)
        if b is None or self.depth > 3:
            fp = ('closure?',)
        else:
            self._closure_cache[cdef] = ('rec',)
            fp = fingerprint(b, Canon(self.F, self.rename, self.depth + 1))
        self._closure_cache[cdef] = fp
        return fp

    def term(self, t):
        def f(n):
            if not n:
                return None
            if n[0] == 'call':
                return ('call', self.callee_name(n[1]), n[2], None)
            if n[0] in ('post', 'elems') and n[1] is not None:
                return (n[0], None) + n[2:]
            if n[0] == 'agg' and isinstance(n[1], tuple) and n[1][0] == 'closure':
                return ('closure', self.closure_fp(n[1][1]), n[2])
            if n[0] == 'fnitem':
                return ('fnitem', self.callee_name(n[1]))
            if n[0] == 'loop':
                return ('loop', None, n[2])
            if n[0] == 'k' and len(n) == 3:
                return ('k', n[1], short_ty(n[2]))
            if n[0] == 'cast' and len(n) >= 4 and isinstance(n[3], str):
                return ('cast', n[1], n[2], short_ty(n[3]), short_ty(n[4]) if len(n) > 4 else None)
            return None
        return effects.rebuild(t, f)


def fingerprint(body, canon=None):
    canon = canon or Canon(body.facts)
    ev, paths = rules.evaluate(body)
    if paths is None:
        return ('too-many-paths', body.defpath)
    out = set()
    for r in paths:
        if r.end not in ('return', 'backedge', 'diverge'):
            continue
        preds = tuple(sorted((repr(canon.term(t)), repr(v)) for t, v, _ in r.preds))
        calls = tuple(repr((canon.callee_name(e['callee']), tuple(canon.term(a) for a in e['args_val'])))
                      for e in r.events if e['kind'] == 'call' and e.get('uid') is not None)
        writes = tuple(sorted(repr((e['path'][1:], canon.term(e['value']))) for e in r.events if e['kind'] == 'write'))
        ret = repr(canon.term(r.ret)) if r.ret is not None else None
        out.add((r.end, preds, calls, writes, ret))
    return frozenset(out)


def diff(fa, fb, limit=2):
    """Human-readable difference of two fingerprints."""
    if isinstance(fa, tuple) or isinstance(fb, tuple):
        return 'fingerprint unavailable: %s / %s' % (fa if isinstance(fa, tuple) else 'ok', fb if isinstance(fb, tuple) else 'ok')
    onlya = list(fa - fb)[:limit]
    onlyb = list(fb - fa)[:limit]
    msg = []
    for x in onlya:
        msg.append('only in first: ret=%s preds=%s' % (str(x[4])[:300], str(x[1])[:200]))
    for x in onlyb:
        msg.append('only in second: ret=%s preds=%s' % (str(x[4])[:300], str(x[1])[:200]))
    return ' | '.join(msg)
